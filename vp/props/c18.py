"""C18 — unit and time conversions are mutually inverse and multiplicative.

Round-trip / homomorphism monitors on the real `Scale`, `PrimitiveEquationsSpecs`, `xarray_utils`
time helpers and `radiation` orbital-time helpers, each also compared with a small independent
reference model (SI factors of the unit spellings written out by hand, calendar arithmetic with
`datetime`), see DESIGN.md §3 C18.

Case kinds
  pint      random compound quantities x one scale: dim(nondim(q),u) = q.to(u); unit independence;
            products / quotients / powers; specs wrappers; missing dimension raises.
  timedelta every whole second 0..5000 (and -5000..-1), random whole seconds up to 1e8, whole
            seconds spelled in ms/m/h/D, scalar and array paths: exact.
  datetime  random whole minutes in +-60 years x reference date: exact; time-axis deltas.
  orbital   datetime_to_orbital_time, SolarRadiation.time_to_orbital_time (float, numpy scalar,
            0-d jax array, vmap, jit), datetime_to_time; consistency within a year.
"""
from __future__ import annotations

import datetime as _dt
import math

import numpy as np

RULE = ('cases = (kind, scale, sub-seed). pint: every random quantity (1-4 unit factors from '
        'm/km/mm/cm, s/minute/hour/day/ms, kg/g, kelvin/degK, N/J/W/Pa/hPa/Hz (and A/mA for the '
        'scale with a current dimension), exponents -3..3, |magnitude| in 1e-12..1e12, scalar or '
        'array) counts as non-trivial if it has >=2 non-zero dimension exponents or a non-SI '
        'spelling; timedelta: each (scale, block of whole seconds) counts once; datetime: each '
        '(scale, reference date, unit) block of random minutes counts once; orbital: each (scale, '
        'reference date, call path) block counts once. Coverage tables list scales, exponents, '
        'decades, call paths and how many reduced phases sat within rounding of the interval ends.')
MIN_NONTRIVIAL = {'quick': 500, 'thorough': 5000}
REQUIRED_MONITORS = {'all': [
    'nondim_vs_reference_model', 'dim_of_nondim_equals_to', 'nondim_unit_independent',
    'nondim_product', 'nondim_quotient', 'nondim_power', 'missing_dimension_raises',
    'timedelta_whole_seconds_scalar_exact', 'timedelta_whole_seconds_array_exact',
    'datetime_minutes_roundtrip_exact', 'time_axis_delta',
    'orbital_phase_lower_bound', 'orbital_phase_upper_bound',
    'orbital_phase_strictly_in_range_away_from_boundary',
    'orbital_phase_consistent_with_elapsed_time', 'datetime_to_orbital_time_vs_calendar',
    'datetime_to_time_vs_reference', 'orbital_time_of_datetime_consistent']}
ASSUMPTIONS = [
    'SI factors of the unit spellings (km=1e3 m, hour=3600 s, g=1e-3 kg, hPa=100 Pa, year=365.25 d) '
    'are written out by hand in the monitor, pint is only the system under observation',
    'python datetime is the independent calendar (leap years, day of year)',
    'the reduced orbital phase is asserted in [0, 2*pi) strictly when the unreduced phase is '
    'further than 1e-9 relative from a multiple of 2*pi, and with a slack of 1e-12*max(1,|phase|) '
    'otherwise (the reduction is computed in floating point)',
    'time_to_orbital_time is driven with scalar times (float, numpy scalar, 0-d jax array, vmap, '
    'jit): tree_math rejects plain array operands',
    'fractional-second durations are only required to come back within one second (the repaired '
    'code documents rounding down)']
TIMEOUT = {'quick': 900, 'thorough': 3600}

TOL = 1e-12
RANGE = 280.0   # log10 budget that keeps every intermediate inside the normal float64 range
TWO_PI = 2 * math.pi

# ------------------------------------------------------------------ independent unit model
# name -> (SI factor, {dimension: exponent});  dimensions L, T, M, K (temperature), I (current)
UNITS = {
    'm': (1.0, {'L': 1}), 'km': (1e3, {'L': 1}), 'mm': (1e-3, {'L': 1}), 'cm': (1e-2, {'L': 1}),
    's': (1.0, {'T': 1}), 'minute': (60.0, {'T': 1}), 'hour': (3600.0, {'T': 1}),
    'day': (86400.0, {'T': 1}), 'ms': (1e-3, {'T': 1}),
    'kg': (1.0, {'M': 1}), 'g': (1e-3, {'M': 1}),
    'kelvin': (1.0, {'K': 1}), 'degK': (1.0, {'K': 1}),
    'N': (1.0, {'L': 1, 'M': 1, 'T': -2}), 'J': (1.0, {'L': 2, 'M': 1, 'T': -2}),
    'W': (1.0, {'L': 2, 'M': 1, 'T': -3}), 'Pa': (1.0, {'L': -1, 'M': 1, 'T': -2}),
    'hPa': (100.0, {'L': -1, 'M': 1, 'T': -2}), 'Hz': (1.0, {'T': -1}),
    'A': (1.0, {'I': 1}), 'mA': (1e-3, {'I': 1}),
}
SPELL = {'L': ['m', 'km', 'mm', 'cm'], 'T': ['s', 'minute', 'hour', 'day'], 'M': ['kg', 'g'],
         'K': ['kelvin', 'degK'], 'I': ['A', 'mA']}
BASE_NAMES = ['m', 'km', 'mm', 'cm', 's', 'minute', 'hour', 'day', 'ms', 'kg', 'g', 'kelvin', 'degK']
DERIVED_NAMES = ['N', 'J', 'W', 'Pa', 'hPa', 'Hz']
PINT_DIM = {'L': '[length]', 'T': '[time]', 'M': '[mass]', 'K': '[temperature]', 'I': '[current]'}

# documented constants of dinosaur.scales (used for the two built-in scales)
_RADIUS, _OMEGA, _MASS_ATM = 6.37122e6, 7.292e-5, 5.18e18

SCALES = [
    {'name': 'default', 'builtin': 'DEFAULT_SCALE',
     'dims': {'L': [_RADIUS, 'm'], 'T': [1 / 2 / _OMEGA, 's'], 'M': [1.0, 'kg'], 'K': [1.0, 'kelvin']}},
    {'name': 'atmospheric', 'builtin': 'ATMOSPHERIC_SCALE',
     'dims': {'L': [_RADIUS, 'm'], 'T': [1 / 2 / _OMEGA, 's'], 'M': [_MASS_ATM, 'kg'], 'K': [1.0, 'kelvin']}},
    {'name': 'si', 'dims': {'L': [1.0, 'm'], 'T': [1.0, 's'], 'M': [1.0, 'kg'], 'K': [1.0, 'kelvin']}},
    {'name': 'km-hour-gram', 'dims': {'L': [2.0, 'km'], 'T': [3.0, 'hour'], 'M': [5.0, 'g'], 'K': [0.1, 'degK']}},
    {'name': 'odd', 'dims': {'L': [1.7e5, 'm'], 'T': [411.0, 's'], 'M': [3.3, 'kg'], 'K': [2.5, 'kelvin']}},
    {'name': 'mm-37s', 'dims': {'L': [250.0, 'mm'], 'T': [37.0, 's'], 'M': [2.5, 'kg'], 'K': [3.0, 'kelvin']}},
    {'name': 'tiny', 'dims': {'L': [1e-6, 'm'], 'T': [1e-3, 's'], 'M': [1e-9, 'kg'], 'K': [1e-2, 'kelvin']}},
    {'name': 'day-huge', 'dims': {'L': [1.0e4, 'km'], 'T': [1.0, 'day'], 'M': [1e18, 'kg'], 'K': [273.15, 'kelvin']}},
    {'name': 'third-second', 'dims': {'L': [3.0, 'cm'], 'T': [1 / 3, 's'], 'M': [7.0, 'g'], 'K': [1.0, 'kelvin']}},
    {'name': 'with-current', 'dims': {'L': [12.0, 'km'], 'T': [0.7, 'minute'], 'M': [40.0, 'kg'], 'K': [10.0, 'kelvin'],
                                      'I': [2.0, 'mA']}},
]
REF_DATES = ['1979-01-01T00:00:00', '2000-02-29T12:34:00', '1969-07-20T20:17:00',
             '2024-12-31T23:59:00', '1900-03-01T00:00:00', '2037-06-15T06:00:00']


def _random_scale(rng, k):
  def mag(lo, hi):
    return float(10 ** rng.uniform(lo, hi) * rng.uniform(1, 9.99))
  return {'name': f'rand{k}', 'dims': {
      'L': [mag(-3, 7), str(rng.choice(SPELL['L']))], 'T': [mag(-2, 5), str(rng.choice(SPELL['T']))],
      'M': [mag(-6, 18), str(rng.choice(SPELL['M']))], 'K': [mag(-2, 2), str(rng.choice(SPELL['K']))]}}


def _scale_si(sd) -> dict:
  """SI magnitude of each base scale (reference model)."""
  return {d: float(np.longdouble(m) * np.longdouble(UNITS[u][0])) for d, (m, u) in sd['dims'].items()}


# ------------------------------------------------------------------ cases
def cases(tier, seed):
  quick = tier == 'quick'
  rng = np.random.default_rng([seed, 118])
  out = []
  scl = list(SCALES) + [_random_scale(rng, k) for k in range(2 if quick else 6)]
  # pint
  per_case = 100 if quick else 125
  n_cases = 1 if quick else 4
  for sd in scl:
    for j in range(n_cases):
      out.append({'id': f'pint-{sd["name"]}-{j}', 'kind': 'pint', 'scale': sd, 'n': per_case, 'sub': j,
                  'env': 'np', 'cost': per_case * 0.015})
  # timedelta
  for sd in scl:
    out.append({'id': f'td-{sd["name"]}', 'kind': 'timedelta', 'scale': sd, 'env': 'np',
                'n_random_scalar': 1000 if quick else 5000, 'n_random_array': 5000 if quick else 50000,
                'cost': 4.5 if quick else 9.0})
  # datetime
  refs = REF_DATES[:4] if quick else REF_DATES
  for i, sd in enumerate(scl):
    for j, ref in enumerate(refs):
      if quick and (i + j) % 2:
        continue
      out.append({'id': f'dt-{sd["name"]}-{j}', 'kind': 'datetime', 'scale': sd, 'ref': ref,
                  'n': 1000 if quick else 4000, 'env': 'np', 'cost': 0.2 if quick else 0.6})
  # orbital
  for i, sd in enumerate(scl):
    for j, ref in enumerate(refs):
      if quick and (i + 2 * j) % 3:
        continue
      out.append({'id': f'orb-{sd["name"]}-{j}', 'kind': 'orbital', 'scale': sd, 'ref': ref,
                  'n': 150 if quick else 600, 'env': 'np', 'cost': 0.6 if quick else 2.0})
  # structured edge cases (always)
  out.append({'id': 'orb-edge-period-multiples', 'kind': 'orbital', 'scale': SCALES[0],
              'ref': REF_DATES[0], 'n': 100, 'edge': 'multiples', 'env': 'np', 'cost': 1.5})
  out.append({'id': 'td-f4-witness', 'kind': 'timedelta', 'scale': SCALES[0], 'env': 'np',
              'n_random_scalar': 0, 'n_random_array': 0, 'witness_only': True, 'cost': 0.2})
  return out


# ------------------------------------------------------------------ helpers (worker side)
def _make_scale(sd, drop=None):
  from dinosaur import scales  # pylint: disable=import-outside-toplevel
  if sd.get('builtin') and drop is None:
    return getattr(scales, sd['builtin'])
  qs = [m * getattr(scales.units, u) for d, (m, u) in sd['dims'].items() if d != drop]
  return scales.Scale(*qs)


def _pint_unit(factors):
  from dinosaur import scales  # pylint: disable=import-outside-toplevel
  un = scales.units.dimensionless
  for name, e in factors:
    un = un * getattr(scales.units, name) ** e
  return un


def _dims_of(factors) -> dict:
  out = {}
  for name, e in factors:
    for d, k in UNITS[name][1].items():
      out[d] = out.get(d, 0) + k * e
  return {d: k for d, k in out.items() if k != 0}


def _si_factor(factors) -> np.longdouble:
  f = np.longdouble(1)
  for name, e in factors:
    f = f * np.longdouble(UNITS[name][0]) ** e
  return f


def _scale_factor(dims, ssi) -> np.longdouble:
  f = np.longdouble(1)
  for d, k in dims.items():
    f = f * np.longdouble(ssi[d]) ** k
  return f


def _ref_nondim(mag, factors, ssi, power=1):
  """Reference model: SI value divided by the product of base scales^exponents (long double)."""
  dims = _dims_of(factors)
  f = _si_factor(factors) / _scale_factor(dims, ssi)
  val = np.asarray(mag, dtype=np.longdouble) ** power * f ** power
  return np.asarray(val, dtype=np.float64)


def _log10_budget(mag, factors, ssi) -> float:
  """Sum of |log10| of every factor that enters the conversion (magnitude, unit factors, base
  scales^exponent).  While p * budget stays below ~280 no intermediate product of the p-th power
  can leave the normal float64 range, whatever the order of multiplication."""
  dims = _dims_of(factors)
  a = np.abs(np.asarray(mag, dtype=np.float64))
  a = a[a > 0]
  lg = float(np.max(np.abs(np.log10(a)))) if a.size else 0.0
  lg += sum(abs(e * math.log10(UNITS[n][0])) for n, e in factors)
  lg += sum(abs(k * math.log10(ssi[d])) for d, k in dims.items())
  return lg


def _alt_factors(rng, dims):
  """Same dimensionality, different spellings."""
  return [(str(rng.choice(SPELL[d])), k) for d, k in dims.items()]


def _rand_quantity(rng, with_current=False):
  names = list(BASE_NAMES) + (['A', 'mA'] if with_current else [])
  nfac = int(rng.integers(1, 5))
  factors = []
  used = set()
  for _ in range(nfac):
    if rng.random() < 0.25:
      name = str(rng.choice(DERIVED_NAMES))
      e = int(rng.choice([-2, -1, 1, 2]))
    else:
      name = str(rng.choice(names))
      e = int(rng.choice([-3, -2, -1, 1, 2, 3]))
    if name in used:
      continue
    used.add(name)
    factors.append((name, e))
  mag = float(10 ** rng.uniform(-12, 12)) * (1.0 if rng.random() < 0.8 else -1.0)
  r = rng.random()
  if r < 0.15:
    mag = mag * rng.standard_normal(3)
  elif r < 0.25:
    mag = mag * rng.standard_normal((2, 2))
  elif r < 0.30:
    mag = mag * rng.uniform(0.5, 2.0, 4)   # positive array
  return mag, factors


def _rel(got, want):
  g = np.asarray(got, dtype=np.float64)
  w = np.asarray(want, dtype=np.float64)
  g, w = np.broadcast_arrays(g, w)
  den = np.where(w != 0, np.abs(w), 1.0)
  return np.abs(g - w) / den


def _mag(q):
  return np.asarray(getattr(q, 'magnitude', q))


# ------------------------------------------------------------------ pint relations
def _run_pint(case, M):
  from dinosaur import primitive_equations as pe  # pylint: disable=import-outside-toplevel
  from dinosaur import scales  # pylint: disable=import-outside-toplevel
  sd = case['scale']
  S = _make_scale(sd)
  ssi = _scale_si(sd)
  specs = pe.PrimitiveEquationsSpecs.from_si(scale=S)
  rng = M.rng(case['sub'])
  with_current = 'I' in sd['dims']
  M.cover('scale', sd['name'])
  # built-in scales: the reference table must describe the object under test
  for d, v in ssi.items():
    M.small('scale_entry_vs_documented_constant', _rel(S[PINT_DIM[d]].to_base_units().magnitude, v), 1.0, 1e-14)
  # offset target units: an absolute temperature re-dimensionalised in degC / degF (dimensionalize
  # accepts any compatible unit; only the target side can be an offset unit)
  u_ = scales.units
  for k in range(6):
    tk = rng.uniform(150.0, 350.0, () if k % 2 == 0 else (4,))
    nd_t = S.nondimensionalize(tk * u_.degK)
    for tgt, ref in ((u_.degC, tk - 273.15), (u_.degF, tk * 9.0 / 5.0 - 459.67)):
      ok_, back = M.no_raise('dim_into_offset_unit_returns', lambda: S.dimensionalize(nd_t, tgt),
                             info={'scale': sd['name'], 'target': str(tgt)})
      if ok_:
        M.small('dim_into_offset_unit_equals_to', np.abs(np.asarray(back.magnitude) - ref), 350.0, TOL,
                info={'scale': sd['name'], 'target': str(tgt), 'kelvin': tk})
        M.small('dim_into_offset_unit_equals_to',
                np.abs(np.asarray(back.magnitude) - np.asarray((tk * u_.degK).to(tgt).magnitude)), 350.0, TOL,
                info={'scale': sd['name'], 'target': str(tgt), 'kelvin': tk, 'oracle': 'pint .to()'})
      M.cover('offset_target_units', str(tgt))
  worst = 0.0
  droppable = [d for d in sd['dims']]
  for k in range(case['n']):
    mag, factors = _rand_quantity(rng, with_current)
    dims = _dims_of(factors)
    unit = _pint_unit(factors)
    q = mag * unit
    lg = _log10_budget(mag, factors, ssi)
    if lg > RANGE:
      M.cover('relations', 'skipped_out_of_float_range')
      continue
    info = {'scale': sd['name'], 'magnitude': mag, 'unit': factors}
    nd = S.nondimensionalize(q)
    want = _ref_nondim(mag, factors, ssi)
    M.small('nondim_vs_reference_model', _rel(nd, want), 1.0, TOL, info=info)
    worst = max(worst, float(np.max(_rel(nd, want))))
    M.check('nondim_shape_preserved', np.shape(nd) == np.shape(mag), info=info)
    # (a) re-dimensionalise in any compatible unit
    alt = _alt_factors(rng, dims)
    alt_unit = _pint_unit(alt)
    back = S.dimensionalize(nd, alt_unit)
    want_q = q.to(alt_unit)
    M.small('dim_of_nondim_equals_to', _rel(back.magnitude, want_q.magnitude), 1.0, TOL, info=info)
    M.check('dim_returns_requested_unit', back.units == alt_unit, info={'got': str(back.units), 'want': str(alt_unit)})
    ref_back = np.asarray(np.asarray(mag, np.longdouble) * (_si_factor(factors) / _si_factor(alt)), np.float64)
    M.small('dim_of_nondim_vs_reference_model', _rel(back.magnitude, ref_back), 1.0, TOL, info=info)
    back0 = S.dimensionalize(nd, unit)
    M.small('dim_of_nondim_same_unit_is_identity', _rel(back0.magnitude, mag), 1.0, TOL, info=info)
    # (b) independent of the unit the quantity is expressed in
    M.small('nondim_unit_independent', _rel(S.nondimensionalize(want_q), nd), 1.0, TOL, info=info)
    M.small('nondim_unit_independent', _rel(S.nondimensionalize(q.to_base_units()), nd), 1.0, TOL, info=info)
    # (c) homomorphism
    mag2, factors2 = _rand_quantity(rng, with_current)
    if np.shape(mag2) not in ((), np.shape(mag)) and np.shape(mag) != ():
      mag2 = float(np.ravel(mag2)[0])
    q2 = mag2 * _pint_unit(factors2)
    lg2 = _log10_budget(mag2, factors2, ssi)
    if lg + lg2 <= RANGE:
      nd2 = S.nondimensionalize(q2)
      M.small('nondim_product', _rel(S.nondimensionalize(q * q2), nd * nd2), 1.0, TOL,
              info={**info, 'q2': [mag2, factors2]})
      if np.all(np.asarray(mag2) != 0):
        M.small('nondim_quotient', _rel(S.nondimensionalize(q / q2), nd / nd2), 1.0, TOL,
                info={**info, 'q2': [mag2, factors2]})
    powers = [p for p in (2, -1, 3, -2) if abs(p) * lg <= RANGE]
    M.cover('relations', 'powers_skipped_out_of_float_range', 4 - len(powers))
    if np.all(np.asarray(mag) > 0):
      powers.append(0.5)
    for p in powers:
      if p < 0 and not np.all(np.asarray(mag) != 0):
        continue
      M.small('nondim_power', _rel(S.nondimensionalize(q ** p), nd ** p), 1.0, TOL, info={**info, 'power': p})
      M.cover('power', str(p))
    # (d) the specs wrappers are the scale's functions
    M.same('specs_wrapper_nondimensionalize', specs.nondimensionalize(q), nd, info=info)
    M.same('specs_wrapper_dimensionalize', _mag(specs.dimensionalize(nd, alt_unit)), _mag(back), info=info)
    # (e) missing dimension raises, present dimensions still work
    if dims and k % 5 == 0:
      d = str(rng.choice(droppable))
      Sm = _make_scale(sd, drop=d)
      if d in dims:
        M.raises('missing_dimension_raises', lambda: Sm.nondimensionalize(q), (ValueError,), info={**info, 'dropped': d})
        M.raises('missing_dimension_raises', lambda: Sm.dimensionalize(1.0, unit), (ValueError,), info={**info, 'dropped': d})
        M.cover('missing_dimension', d)
      else:
        M.small('reduced_scale_agrees_on_present_dimensions', _rel(Sm.nondimensionalize(q), nd), 1.0, TOL, info=info)
    # zero and dimensionless
    if k % 10 == 0:
      M.zero('nondim_of_zero_is_zero', S.nondimensionalize(0.0 * unit))
      x = float(rng.standard_normal())
      M.same('dimensionless_passes_through', np.float64(S.nondimensionalize(x * scales.units.dimensionless)), np.float64(x))
    for d, e in dims.items():
      M.cover('dimension_exponent', f'{d}^{e}')
    M.cover('decade_log10|q|', str(int(math.floor(math.log10(np.max(np.abs(mag)) + 1e-300) / 4) * 4)))
    M.cover('value_kind', 'scalar' if np.shape(mag) == () else f'array{np.shape(mag)}')
    nonsi = any(n not in ('m', 's', 'kg', 'kelvin') for n, _ in factors)
    if len(dims) >= 2 or nonsi:
      M.nontrivial('q', k)
    if k < 2:
      M.sample({'scale': sd['name'], 'quantity': f'{mag} {unit}', 'nondim': nd, 'reference': want,
                'alt_unit': str(alt_unit)})
  # jax-array values are accepted too
  try:
    import jax.numpy as jnp  # pylint: disable=import-outside-toplevel
    v = rng.standard_normal(3)
    b = S.dimensionalize(jnp.asarray(v), scales.units.km)
    M.small('dim_accepts_jax_arrays', _rel(np.asarray(b.magnitude), v * ssi['L'] / 1e3), 1.0, TOL)
    n2 = S.nondimensionalize(jnp.asarray(v) * scales.units.km)
    M.small('nondim_accepts_jax_arrays', _rel(np.asarray(n2), v * 1e3 / ssi['L']), 1.0, TOL)
  except ImportError:
    M.unavailable('jax')
  M.note('worst_relative_error_nondim_vs_reference', worst)


# ------------------------------------------------------------------ timedelta
def _run_timedelta(case, M):
  from dinosaur import primitive_equations as pe  # pylint: disable=import-outside-toplevel
  sd = case['scale']
  S = _make_scale(sd)
  T = _scale_si(sd)['T']
  specs = pe.PrimitiveEquationsSpecs.from_si(scale=S)
  rng = M.rng()
  M.cover('timedelta_scale_seconds', f'{sd["name"]}:{T:.6g}')

  def rt(td):
    return specs.dimensionalize_timedelta64(specs.nondimensionalize_timedelta64(td))

  if case.get('witness_only'):
    # the durations named in finding F4 (fixed): 27 s, 29 s under the default scale
    for s in (27, 29, 54, 58, 3599, 86399):
      td = np.timedelta64(s, 's')
      M.check('timedelta_whole_seconds_scalar_exact', rt(td) == td, info={'seconds': s, 'got': str(rt(td))})
    M.nontrivial('f4-witness')
    return

  def scalar_block(name, secs):
    bad = []
    for s in secs:
      td = np.timedelta64(int(s), 's')
      b = rt(td)
      if not (isinstance(b, np.timedelta64) and b == td):
        bad.append((int(s), str(b)))
    M.check('timedelta_whole_seconds_scalar_exact', not bad,
            info={'scale': sd['name'], 'block': name, 'n_bad': len(bad), 'first': bad[:5]})
    M.cover('timedelta_scalar_durations', name, len(secs))
    M.nontrivial('scalar', name)

  def array_block(name, arr):
    nd = specs.nondimensionalize_timedelta64(arr)
    M.small('timedelta_nondim_vs_reference_model',
            _rel(nd, arr.astype('timedelta64[s]').astype(np.int64) / np.longdouble(T)), 1.0, TOL)
    b = specs.dimensionalize_timedelta64(np.asarray(nd))
    ok = b.shape == arr.shape and b.dtype == np.dtype('timedelta64[s]') and bool(np.all(b == arr))
    bad = np.nonzero(b != arr)[0] if b.shape == arr.shape else np.arange(0)
    M.check('timedelta_whole_seconds_array_exact', ok,
            info={'scale': sd['name'], 'block': name, 'n_bad': int(bad.size), 'dtype': str(b.dtype),
                  'first': [(str(arr[i]), str(b[i])) for i in bad[:5]]})
    M.cover('timedelta_array_durations', name, int(arr.size))
    M.nontrivial('array', name)

  # every whole second 0..5000, scalar and array
  for lo in range(0, 5001, 1000):
    hi = min(lo + 1000, 5001)
    scalar_block(f'{lo}..{hi - 1}', range(lo, hi))
  array_block('0..5000', np.arange(0, 5001).astype('timedelta64[s]'))
  # negative whole seconds
  scalar_block('-5000..-1 step 7', range(-5000, 0, 7))
  array_block('-5000..-1', np.arange(-5000, 0).astype('timedelta64[s]'))
  # random whole seconds up to 1e8 (log-uniform and uniform)
  n = case['n_random_scalar']
  if n:
    secs = np.concatenate([rng.integers(0, 10 ** 8, n // 2),
                           np.floor(10 ** rng.uniform(3.5, 8, n - n // 2)).astype(np.int64)])
    scalar_block('random<=1e8', secs)
  n = case['n_random_array']
  if n:
    secs = np.concatenate([rng.integers(0, 10 ** 8, n // 2),
                           np.floor(10 ** rng.uniform(3.5, 8, n - n // 2)).astype(np.int64)])
    array_block('random<=1e8', secs.astype('timedelta64[s]'))
    array_block('random 2-d', secs[:(secs.size // 4) * 4].reshape(4, -1).astype('timedelta64[s]'))
  # whole seconds spelled in other units
  for unit, mult, hi in (('ms', 1000, 10 ** 6), ('m', 1, 10 ** 5), ('h', 1, 30000), ('D', 1, 1100), ('us', 10 ** 6, 10 ** 4)):
    k = rng.integers(0, hi, 300) * mult
    arr = k.astype(f'timedelta64[{unit}]')
    array_block(f'unit {unit}', arr)
    bad = []
    for v in arr[:60]:
      b = rt(v)
      if b != v:
        bad.append((str(v), str(b)))
    M.check('timedelta_whole_seconds_scalar_exact', not bad, info={'scale': sd['name'], 'unit': unit, 'first': bad[:5]})
  # model time as the float32 build carries it: nondimensional values cast to float32 (numpy scalar,
  # numpy array, jax scalar).  float32 resolves whole seconds only up to ~1e5 s (8 ulp guard of the
  # conversion reaches 0.1 s there), so this block stays below 1e5 s.
  secs32 = np.unique(np.concatenate([np.arange(0, 3001), rng.integers(3001, 10 ** 5, 1500)]))
  arr32 = secs32.astype('timedelta64[s]')
  nd32 = np.asarray(specs.nondimensionalize_timedelta64(arr32)).astype(np.float32)
  b32 = specs.dimensionalize_timedelta64(nd32)
  bad = np.nonzero(np.asarray(b32) != arr32)[0]
  M.check('timedelta_whole_seconds_float32_model_time_exact', bad.size == 0,
          info={'scale': sd['name'], 'path': 'float32 array', 'n_bad': int(bad.size),
                'first': [(str(arr32[i]), str(b32[i])) for i in bad[:5]]})
  bad = []
  for s_ in list(secs32[:400]) + list(secs32[-200:]):
    v = np.float32(specs.nondimensionalize_timedelta64(np.timedelta64(int(s_), 's')))
    got = specs.dimensionalize_timedelta64(v)
    if got != np.timedelta64(int(s_), 's'):
      bad.append((int(s_), str(got)))
  M.check('timedelta_whole_seconds_float32_model_time_exact', not bad,
          info={'scale': sd['name'], 'path': 'float32 scalar', 'n_bad': len(bad), 'first': bad[:5]})
  try:
    import jax.numpy as jnp  # pylint: disable=import-outside-toplevel
    bad = []
    for s_ in list(secs32[1:60]) + list(secs32[-60:]):
      v = jnp.asarray(specs.nondimensionalize_timedelta64(np.timedelta64(int(s_), 's')), dtype=jnp.float32)
      got = specs.dimensionalize_timedelta64(v)
      if got != np.timedelta64(int(s_), 's'):
        bad.append((int(s_), str(got)))
    M.check('timedelta_whole_seconds_float32_model_time_exact', not bad,
            info={'scale': sd['name'], 'path': 'jax float32 scalar', 'n_bad': len(bad), 'first': bad[:5]})
  except ImportError:
    M.unavailable('jax float32 model time')
  M.cover('timedelta_float32_durations', sd['name'], int(secs32.size))
  # fractional durations: only "within one second" is demanded
  ms = rng.integers(0, 10 ** 8, 500)
  arr = ms.astype('timedelta64[ms]')
  b = specs.dimensionalize_timedelta64(np.asarray(specs.nondimensionalize_timedelta64(arr)))
  err = (b.astype('timedelta64[ms]') - arr).astype(np.int64) / 1000.0
  M.le('timedelta_fractional_within_one_second', np.abs(err), 1.0, slack=1e-6)
  M.cover('fractional_rounding', 'down' if np.all(err <= 0) else 'mixed')
  M.sample({'scale': sd['name'], 'time_scale_s': T, 'example': '27 s -> ' + str(rt(np.timedelta64(27, 's')))})


# ------------------------------------------------------------------ datetime <-> model time
def _run_datetime(case, M):
  from dinosaur import primitive_equations as pe  # pylint: disable=import-outside-toplevel
  from dinosaur import xarray_utils as xu  # pylint: disable=import-outside-toplevel
  sd = case['scale']
  S = _make_scale(sd)
  T = _scale_si(sd)['T']
  specs = pe.PrimitiveEquationsSpecs.from_si(scale=S)
  rng = M.rng()
  n = case['n']
  span = 60 * 365 * 1440
  ref_m = np.datetime64(case['ref']).astype('datetime64[m]')
  for unit in ('m', 's', 'ns', 'h'):
    ref = np.datetime64(case['ref']).astype(f'datetime64[{"m" if unit == "h" else unit}]')
    mins = rng.integers(-span, span + 1, n)
    if unit == 'h':
      t = ref_m.astype('datetime64[h]') + (mins // 60).astype('timedelta64[h]')
      mins = (t.astype('datetime64[m]') - ref_m).astype(np.int64)
    else:
      t = (ref_m + mins.astype('timedelta64[m]')).astype(f'datetime64[{unit}]')
    nd = xu.datetime64_to_nondim_time(t, specs, ref)
    M.check('nondim_time_is_float64', np.asarray(nd).dtype == np.float64, info={'dtype': str(np.asarray(nd).dtype)})
    want = mins.astype(np.float64) * 60.0 / np.longdouble(T)
    M.small('nondim_time_vs_reference_model', _rel(nd, np.asarray(want, np.float64)), 1.0, TOL,
            info={'scale': sd['name'], 'ref': case['ref'], 'unit': unit})
    back = xu.nondim_time_to_datetime64(nd, specs, ref)
    bad = np.nonzero(back != t)[0]
    M.check('datetime_minutes_roundtrip_exact', bad.size == 0,
            info={'scale': sd['name'], 'ref': case['ref'], 'unit': unit, 'n_bad': int(bad.size),
                  'first': [(str(t[i]), str(back[i])) for i in bad[:5]]})
    # scalar path
    bads = []
    for i in range(0, n, max(1, n // 40)):
      b = xu.nondim_time_to_datetime64(xu.datetime64_to_nondim_time(t[i], specs, ref), specs, ref)
      if b != t[i]:
        bads.append((str(t[i]), str(b)))
    M.check('datetime_minutes_roundtrip_exact', not bads, info={'path': 'scalar', 'first': bads[:5], 'unit': unit})
    # model time -> datetime -> model time (whole minutes in model time)
    nd2 = xu.datetime64_to_nondim_time(back, specs, ref)
    M.same('model_time_roundtrip', np.asarray(nd2), np.asarray(nd))
    M.cover('datetime_unit', unit, n)
    M.nontrivial('dt', unit)
  M.sample({'scale': sd['name'], 'ref': case['ref'], 'when': str(t[0]), 'nondim': float(nd[0])})

  # ---- time axis deltas
  for unit, sec in (('s', 1), ('m', 60), ('h', 3600), ('D', 86400), ('ns', 1e-9), ('ms', 1e-3)):
    for length in (2, 3, 17):
      if unit in ('ns', 'ms'):
        step_s = int(rng.integers(1, 200000))
        step = np.timedelta64(int(round(step_s / sec)), unit)
      else:
        k = int(rng.integers(1, 500))
        step_s = k * sec
        step = np.timedelta64(k, unit)
      start = ref_m + np.timedelta64(int(rng.integers(-span, span)), 'm')
      axis = (start.astype(f'datetime64[{unit}]') + step * np.arange(length))
      d = xu.nondim_time_delta_from_time_axis(axis, specs)
      M.small('time_axis_delta', _rel(d, float(step_s / np.longdouble(T))), 1.0, TOL,
              info={'unit': unit, 'step_s': step_s, 'length': length, 'scale': sd['name']})
      M.check('time_axis_delta_roundtrips_to_step',
              specs.dimensionalize_timedelta64(d) == np.timedelta64(step_s, 's'),
              info={'unit': unit, 'step_s': step_s, 'got': str(specs.dimensionalize_timedelta64(d))})
      nda = xu.datetime64_to_nondim_time(axis, specs, ref_m)
      M.small('time_axis_delta_consistent_with_nondim_time', np.abs(np.diff(nda) - d),
              max(1.0, float(np.max(np.abs(nda)))), 1e-13 * 16)
      M.cover('time_axis', f'{unit}/len{length}')
  fa = np.sort(rng.uniform(-1e3, 1e3, 5))
  M.same('time_axis_delta_float_axis', np.float64(xu.nondim_time_delta_from_time_axis(fa, specs)), np.float64(fa[1] - fa[0]))
  M.nontrivial('axis')


# ------------------------------------------------------------------ orbital time
def _cal_phases(when: _dt.datetime):
  """Independent calendar model: (orbital, synodic) phase of a datetime at minute resolution."""
  y0 = _dt.datetime(when.year, 1, 1)
  y1 = _dt.datetime(when.year + 1, 1, 1)
  ndays = (y1 - y0).days
  minutes = int((when - y0).total_seconds() // 60)
  full_days, minute_of_day = divmod(minutes, 1440)
  return (TWO_PI * (full_days + minute_of_day / 1440) / ndays, TWO_PI * minute_of_day / 1440)


def _to_datetime(s: str) -> _dt.datetime:
  return _dt.datetime.strptime(s, '%Y-%m-%dT%H:%M:%S')


def _rand_datetime(rng, whole_minutes=True, lo=1900, hi=2100):
  base = _dt.datetime(lo, 1, 1)
  total_min = int((_dt.datetime(hi, 1, 1) - base).total_seconds() // 60)
  d = base + _dt.timedelta(minutes=int(rng.integers(0, total_min)))
  if not whole_minutes:
    d = d + _dt.timedelta(seconds=int(rng.integers(0, 60)))
  return d


def _run_orbital(case, M):
  import jax  # pylint: disable=import-outside-toplevel
  import jax.numpy as jnp  # pylint: disable=import-outside-toplevel
  from dinosaur import coordinate_systems as cs  # pylint: disable=import-outside-toplevel
  from dinosaur import primitive_equations as pe  # pylint: disable=import-outside-toplevel
  from dinosaur import radiation as rad  # pylint: disable=import-outside-toplevel
  from dinosaur import sigma_coordinates as sc  # pylint: disable=import-outside-toplevel
  from dinosaur import spherical_harmonic as sh  # pylint: disable=import-outside-toplevel
  sd = case['scale']
  S = _make_scale(sd)
  T = _scale_si(sd)['T']
  specs = pe.PrimitiveEquationsSpecs.from_si(scale=S)
  rng = M.rng()
  n = case['n']
  ref_dt = _to_datetime(case['ref'])
  coords = cs.CoordinateSystem(sh.Grid.with_wavenumbers(2), sc.SigmaCoordinates.equidistant(1))

  # ---- datetime_to_orbital_time against the calendar model
  whens = [_rand_datetime(rng, whole_minutes=bool(i % 2)) for i in range(n)]
  whens += [_dt.datetime(2000, 2, 29, 23, 59), _dt.datetime(1999, 12, 31, 23, 59, 59), _dt.datetime(2001, 1, 1),
            _dt.datetime(1900, 12, 31, 23, 59), _dt.datetime(2024, 12, 31, 23, 59), _dt.datetime(2023, 3, 1)]
  got = np.array([[float(o.orbital_phase), float(o.synodic_phase)] for o in map(rad.datetime_to_orbital_time, whens)])
  want = np.array([_cal_phases(w) for w in whens])
  M.close('datetime_to_orbital_time_vs_calendar', got, want, 1e-13, scale=TWO_PI,
          info={'first': str(whens[0])})
  M.check('datetime_to_orbital_time_in_[0,2pi)', bool(np.all((got >= 0) & (got < TWO_PI))),
          info={'min': float(got.min()), 'max': float(got.max())})
  M.cover('leap_years_seen', str(sorted({w.year % 4 == 0 and (w.year % 100 != 0 or w.year % 400 == 0) for w in whens})))

  # ---- SolarRadiation: reference phase and rates
  sr_variants = {'datetime64[s]': np.datetime64(case['ref']), 'datetime': ref_dt,
                 'datetime64[m]': np.datetime64(case['ref']).astype('datetime64[m]')}
  srs = {k: rad.SolarRadiation(coords, specs, v) for k, v in sr_variants.items()}
  sr = srs['datetime64[s]']
  ref_ph = np.array(_cal_phases(ref_dt))
  for k, s_ in srs.items():
    M.close('reference_orbital_time_vs_calendar',
            [float(s_.reference_orbital_time.orbital_phase), float(s_.reference_orbital_time.synodic_phase)],
            ref_ph, 1e-13, scale=TWO_PI, info={'ref_type': k})
  rate_ref = np.array([float(TWO_PI / np.longdouble(365.25 * 86400) * np.longdouble(T)),
                       float(TWO_PI / np.longdouble(86400) * np.longdouble(T))])
  rate_got = np.array([float(sr.orbital_rate.orbital_phase), float(sr.orbital_rate.synodic_phase)])
  M.small('orbital_rate_vs_reference_model', _rel(rate_got, rate_ref), 1.0, TOL,
          info={'got': rate_got, 'want': rate_ref, 'scale': sd['name']})

  # ---- time_to_orbital_time over model times +-1e6
  if case.get('edge') == 'multiples':
    day = 86400.0 / T
    year = 365.25 * 86400.0 / T
    ks = rng.integers(-3000, 3001, 4 * n)
    times = np.concatenate([ks[:2 * n] * day, ks[2 * n:3 * n] * year / 10, [0.0, -0.0, -1e-22, 1e-22, -1e-300],
                            np.arange(-50, 51) * day])
  else:
    times = np.concatenate([rng.uniform(-1e6, 1e6, n), 10 ** rng.uniform(-6, 6, n) * rng.choice([-1, 1], n),
                            [0.0, 1e6, -1e6, 1e-3, -1e-3]])

  def report(path, t, ph):
    """t: (k,) model times, ph: (k,2) reduced phases from the repository."""
    x = ref_ph[None, :] + rate_ref[None, :] * t[:, None]
    Sx = np.maximum(1.0, np.abs(x))
    M.finite('orbital_phase_finite', ph)
    M.le('orbital_phase_lower_bound', -ph / Sx, 0.0, slack=TOL, info={'path': path, 'scale': sd['name']})
    M.le('orbital_phase_upper_bound', (ph - TWO_PI) / Sx, 0.0, slack=TOL, info={'path': path, 'scale': sd['name']})
    frac = x / TWO_PI
    near = np.abs(frac - np.round(frac)) * TWO_PI <= 1e-9 * Sx
    inside = (ph >= 0) & (ph < TWO_PI)
    M.check('orbital_phase_strictly_in_range_away_from_boundary', bool(np.all(inside | near)),
            info={'path': path, 'offenders': ph[~(inside | near)][:5], 'times': t[np.any(~(inside | near), axis=1)][:5]})
    M.cover('phase_interval', 'strictly_inside', int(inside.sum()))
    M.cover('phase_interval', 'outside_within_rounding(reported)', int((~inside).sum()))
    M.cover('phase_interval', 'near_boundary_inputs', int(near.sum()))
    if (~inside).any():
      M.note('max_rounding_excursion_outside_[0,2pi)_over_|phase|',
             float(np.max(np.where(~inside, np.maximum(-ph, ph - TWO_PI), 0) / Sx)))
    d = np.abs(np.exp(1j * ph) - np.exp(1j * x)) / Sx
    M.small('orbital_phase_consistent_with_elapsed_time', d, 1.0, TOL,
            info={'path': path, 'scale': sd['name'], 'ref': case['ref']})
    M.cover('call_path', path, int(t.size))
    M.cover('time_sign', 'negative', int((t < 0).sum()))
    M.cover('time_sign', 'non-negative', int((t >= 0).sum()))
    M.nontrivial('orbital', path)

  def phases(fn, ts, conv):
    out = []
    for t_ in ts:
      o = fn(conv(t_))
      out.append([float(o.orbital_phase), float(o.synodic_phase)])
    return np.array(out)

  report('python float', times, phases(sr.time_to_orbital_time, times, float))
  sub = times[::3]
  report('numpy float64 scalar', sub, phases(sr.time_to_orbital_time, sub, np.float64))
  sub = times[1::3][:80]
  report('0-d jax array', sub, phases(sr.time_to_orbital_time, sub, jnp.asarray))
  o = jax.vmap(sr.time_to_orbital_time)(jnp.asarray(times))
  report('vmap over array', times, np.stack([np.asarray(o.orbital_phase), np.asarray(o.synodic_phase)], -1))
  o = jax.jit(jax.vmap(srs['datetime'].time_to_orbital_time))(jnp.asarray(times))
  report('jit(vmap)', times, np.stack([np.asarray(o.orbital_phase), np.asarray(o.synodic_phase)], -1))
  M.sample({'scale': sd['name'], 'ref': case['ref'], 't': float(times[0]),
            'phases': phases(sr.time_to_orbital_time, times[:1], float)[0],
            'unreduced': (ref_ph + rate_ref * times[0])})

  # ---- datetime_to_time
  whens2 = [_rand_datetime(rng, whole_minutes=bool(i % 3)) for i in range(min(n, 200))] + [ref_dt]
  got, want = [], []
  for i, w in enumerate(whens2):
    w64 = np.datetime64(w.strftime('%Y-%m-%dT%H:%M:%S'))
    variant = i % 4
    if variant == 0:
      g = rad.datetime_to_time(w, specs, ref_dt)
    elif variant == 1:
      g = rad.datetime_to_time(w64, specs, np.datetime64(case['ref']))
    elif variant == 2:
      g = srs['datetime'].datetime_to_time(w64)
    else:
      g = sr.datetime_to_time(w)
    got.append(float(g))
    want.append(float(np.longdouble((w - ref_dt).total_seconds()) / np.longdouble(T)))
    M.cover('datetime_to_time_arg_types', ['datetime/datetime', 'datetime64/datetime64', 'method(datetime64)', 'method(datetime)'][variant])
  M.small('datetime_to_time_vs_reference', _rel(got, want), 1.0, TOL, info={'scale': sd['name'], 'ref': case['ref']})
  M.zero('datetime_to_time_of_reference_is_zero', got[-1])
  M.nontrivial('datetime_to_time')

  # ---- orbital time of datetime_to_time(when) vs datetime_to_orbital_time(when), |when-ref| <= 1 year
  bound_orb = TWO_PI * 366 * (1 / 365.25 - 1 / 366) * 1.05   # calendar-year vs Julian-year drift
  worst_o = worst_s = 0.0
  for i in range(min(n, 200)):
    w = ref_dt + _dt.timedelta(minutes=int(rng.integers(-366 * 1440, 366 * 1440 + 1)))
    t_ = sr.datetime_to_time(w)
    o1 = sr.time_to_orbital_time(t_)
    o2 = rad.datetime_to_orbital_time(w)
    do = abs(np.exp(1j * float(o1.orbital_phase)) - np.exp(1j * float(o2.orbital_phase)))
    ds = abs(np.exp(1j * float(o1.synodic_phase)) - np.exp(1j * float(o2.synodic_phase)))
    worst_o, worst_s = max(worst_o, do), max(worst_s, ds)
  M.le('orbital_time_of_datetime_consistent', worst_o, bound_orb, info={'which': 'orbital', 'ref': case['ref']})
  M.small('synodic_time_of_datetime_consistent', worst_s, 1.0, 1e-9, info={'ref': case['ref']})
  M.note('orbital_phase_calendar_vs_linear_max_rad', worst_o)
  M.note('synodic_phase_calendar_vs_linear_max_rad', worst_s)
  M.nontrivial('consistency')


def run(case, M):
  kind = case['kind']
  if kind == 'pint':
    _run_pint(case, M)
  elif kind == 'timedelta':
    _run_timedelta(case, M)
  elif kind == 'datetime':
    _run_datetime(case, M)
  elif kind == 'orbital':
    _run_orbital(case, M)
  else:
    from vp import core  # pylint: disable=import-outside-toplevel
    raise core.HarnessError(f'unknown case kind {kind}')
