"""pytest plugin: run the repository's own test-suite with the harness-side contracts installed.

Usage (what vp/props/c11.py does in the thorough tier, in a subprocess with a timeout):

  cd $VERIF_REPO && DINOSAUR_VERIF=1 VP_CONTRACT_REPORT=/tmp/x.json PYTHONPATH=/verif:/verif/.deps \
      /venv/bin/python -m pytest -q -p no:cacheprovider -p vp.pytest_contracts dinosaur/foo_test.py

The plugin installs `vp.contracts` before any test module is imported (pytest_configure), so no
reference to the wrapped attributes can have been bound earlier by a test module, and writes the
per-contract counters (evaluated / traced-skipped / failed / first failure with the test id) and
the test outcomes to the JSON file named by VP_CONTRACT_REPORT at session end.  With the guard
DINOSAUR_VERIF unset it does nothing.
"""
from __future__ import annotations

import json
import os

_OUTCOMES = {'passed': 0, 'failed': 0, 'skipped': 0, 'error': 0}
_FAILED_IDS: list = []
_CONTRACT_FAILED_IDS: list = []


def pytest_configure(config):  # pylint: disable=unused-argument
  from vp import contracts  # pylint: disable=import-outside-toplevel
  contracts.install()


def pytest_runtest_logreport(report):
  if report.when == 'call':
    if report.passed:
      _OUTCOMES['passed'] += 1
    elif report.failed:
      _OUTCOMES['failed'] += 1
      _FAILED_IDS.append(report.nodeid)
      if 'ContractViolation' in str(report.longrepr)[-6000:]:
        _CONTRACT_FAILED_IDS.append(report.nodeid)
    elif report.skipped:
      _OUTCOMES['skipped'] += 1
  elif report.failed:
    _OUTCOMES['error'] += 1
    _FAILED_IDS.append(report.nodeid + '::' + report.when)
  elif report.when == 'setup' and report.skipped:
    _OUTCOMES['skipped'] += 1


def pytest_sessionfinish(session, exitstatus):  # pylint: disable=unused-argument
  path = os.environ.get('VP_CONTRACT_REPORT')
  if not path:
    return
  from vp import contracts  # pylint: disable=import-outside-toplevel
  import dinosaur  # pylint: disable=import-outside-toplevel
  out = {'installed': contracts.installed(), 'unavailable': contracts.unavailable(),
         'stats': contracts.snapshot(), 'outcomes': dict(_OUTCOMES), 'failed_ids': _FAILED_IDS[:50],
         'contract_failed_ids': _CONTRACT_FAILED_IDS[:50], 'exitstatus': int(exitstatus),
         'dinosaur_file': os.path.realpath(dinosaur.__file__)}
  tmp = path + '.tmp'
  with open(tmp, 'w') as f:
    json.dump(out, f, default=str)
  os.replace(tmp, path)
