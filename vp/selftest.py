"""Self-test: every deliberate break in mutants/<ID>/*.diff must be reported as a violation.

./check --selftest <ID>|all [--tier quick|thorough] [--only substring] [--silence N] [--jobs J]

For each patch: copy the repository's sources to a scratch directory outside /repo and /verif,
apply the patch there, run the check with VERIF_REPO=<scratch> (evidence writing disabled) and
require exit code 1.  With --silence N the check is additionally run N times with different
seeds on the unchanged tree and must stay silent (exit 0).
"""
from __future__ import annotations

import glob
import os
import shutil
import subprocess
import sys
import tempfile
import time

HERE = os.path.dirname(os.path.dirname(os.path.abspath(__file__)))


def _copy_repo(dst):
  src = os.path.realpath(os.environ.get('VERIF_REPO', '/repo'))
  shutil.copytree(src, dst, ignore=shutil.ignore_patterns('.git', '__pycache__', '*.pyc', 'notebooks', '*.png'))


def run_mutant(prop, patch, tier):
  tmp = tempfile.mkdtemp(prefix='vp-mut-')
  try:
    dst = os.path.join(tmp, 'repo')
    _copy_repo(dst)
    p = subprocess.run(['patch', '-p1', '-s', '--no-backup-if-mismatch', '-i', patch], cwd=dst,
                       capture_output=True, text=True)
    if p.returncode != 0:
      return 'patch-failed', p.stdout + p.stderr, 0.0
    env = dict(os.environ, VERIF_REPO=dst, VP_NO_EVIDENCE='1', VP_REPLAY_DIR=os.path.join(tmp, 'replays'))
    if os.environ.get('VP_SELFTEST_FULL') != '1':
      env['VP_FAIL_FAST'] = '1'   # stop the run at the first violation (the verdict cannot change)
    t0 = time.time()
    q = subprocess.run([os.path.join(HERE, 'check'), prop, tier], env=env, capture_output=True,
                       text=True)
    out = q.stdout + q.stderr
    status = {0: 'MISSED', 1: 'caught', 2: 'inconclusive'}.get(q.returncode, f'exit{q.returncode}')
    return status, out, time.time() - t0
  finally:
    shutil.rmtree(tmp, ignore_errors=True)


def main(args):
  if not args:
    print(__doc__)
    return 2
  tier = 'quick'
  only = None
  silence = 0
  jobs = 1
  props = []
  it = iter(args)
  for a in it:
    if a == '--tier':
      tier = next(it)
    elif a == '--only':
      only = next(it)
    elif a == '--silence':
      silence = int(next(it))
    elif a == '--jobs':
      jobs = int(next(it))
    elif a == 'all':
      props = [f'C{i:02d}' for i in range(1, 21)]
    else:
      props.append(a.upper())
  bad = 0
  import concurrent.futures as cf
  for prop in props:
    patches = sorted(glob.glob(os.path.join(HERE, 'mutants', prop, '*.diff')))
    if only:
      patches = [p for p in patches if only in os.path.basename(p)]
    if jobs > 1 and 'VP_WORKERS_ORIG' not in os.environ:
      os.environ['VP_WORKERS_ORIG'] = os.environ.get('VP_WORKERS', '14')
      os.environ['VP_WORKERS'] = str(max(2, int(os.environ['VP_WORKERS_ORIG']) // jobs))
    with cf.ThreadPoolExecutor(max_workers=jobs) as ex:
      results = list(ex.map(lambda p: run_mutant(prop, p, tier), patches))
    for patch, (status, out, wall) in zip(patches, results):
      mon = ''
      for line in out.splitlines():
        if line.strip().startswith('violation monitor='):
          mon = line.strip()[:160]
          break
      print(f'{prop} {os.path.basename(patch):45s} {status:12s} {wall:5.0f}s  {mon}', flush=True)
      if status != 'caught':
        bad += 1
        print('    ' + '\n    '.join(out.splitlines()[-6:]))
    for s in range(silence):
      env = dict(os.environ, VERIF_SEED=str(100 + s), VP_NO_EVIDENCE='1')
      q = subprocess.run([os.path.join(HERE, 'check'), prop, tier], env=env, capture_output=True, text=True)
      print(f'{prop} unchanged tree seed={100+s}: exit {q.returncode}', flush=True)
      if q.returncode != 0:
        bad += 1
        print('    ' + '\n    '.join((q.stdout + q.stderr).splitlines()[-8:]))
  return 1 if bad else 0
