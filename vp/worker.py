"""Worker process: runs a shard of cases of one property against the tree in VERIF_REPO.

Invoked by the orchestrator as  `python -m vp.worker <shard.json> <out.json>`  in a fresh
interpreter so that process-global JAX settings (x64, virtual device count) can differ
between shards and the repository sources are always the ones on disk now.
"""
from __future__ import annotations

import importlib
import json
import os
import sys
import time
import traceback
import warnings


def _setup_env(env: str):
  """env is one of 'f64', 'f32', 'f64x8', 'f32x8', 'np' (no jax settings needed)."""
  ndev = 8 if env.endswith('x8') else 1
  flags = [f'--xla_force_host_platform_device_count={ndev}']
  if ndev == 1:
    flags += ['--xla_cpu_multi_thread_eigen=false', 'intra_op_parallelism_threads=1']
  os.environ['XLA_FLAGS'] = ' '.join(flags)
  os.environ.setdefault('JAX_PLATFORMS', 'cpu')
  os.environ.setdefault('OMP_NUM_THREADS', '1')
  os.environ.setdefault('OPENBLAS_NUM_THREADS', '1')
  os.environ.setdefault('MKL_NUM_THREADS', '1')
  import jax  # pylint: disable=import-outside-toplevel
  jax.config.update('jax_enable_x64', env.startswith('f64') or env == 'np')


def _repo_frames(tb_text_frames, repo: str) -> bool:
  for fr in tb_text_frames:
    fn = fr.filename
    if fn.startswith(os.path.join(repo, 'dinosaur')) and not fn.endswith('_test.py'):
      return True
  return False


def main(argv):
  shard_path, out_path = argv[1], argv[2]
  with open(shard_path) as f:
    shard = json.load(f)
  repo = os.path.realpath(shard['repo'])
  here = os.path.dirname(os.path.dirname(os.path.abspath(__file__)))
  deps = os.path.join(here, '.deps')
  sys.path[:0] = [repo, here]
  if os.path.isdir(deps):
    sys.path.append(deps)
  _setup_env(shard['env'])

  from vp import core  # pylint: disable=import-outside-toplevel

  result = {'status': 'started', 'cases_done': [], 'case_errors': [], 'export': None,
            'env': shard['env'], 't_import': None, 'case_wall': {}}

  def flush():
    tmp = out_path + '.tmp'
    with open(tmp, 'w') as f:
      json.dump(result, f)
    os.replace(tmp, out_path)

  t0 = time.time()
  import dinosaur  # pylint: disable=import-outside-toplevel
  droot = os.path.realpath(os.path.dirname(dinosaur.__file__))
  if not droot.startswith(repo):
    result['status'] = 'wrong_repo'
    result['detail'] = f'dinosaur imported from {droot}, expected under {repo}'
    flush()
    return 3
  mod = importlib.import_module(f'vp.props.{shard["prop"].lower()}')
  result['t_import'] = time.time() - t0
  M = core.Monitor(shard['prop'], shard['tier'], shard['seed'])
  M.env = shard['env']
  M.repo = repo
  flush()

  warnings.simplefilter('default')
  for case in shard['cases']:
    M.begin(case)
    result['running'] = case.get('id')
    flush()
    t1 = time.time()
    try:
      with warnings.catch_warnings(record=True) as wlist:
        warnings.simplefilter('always', RuntimeWarning)
        mod.run(case, M)
      for w in wlist:
        if issubclass(w.category, RuntimeWarning) and str(w.filename).startswith(droot):
          M.event('numpy_runtime_warning', message=str(w.message)[:200],
                  where=f'{os.path.relpath(w.filename, repo)}:{w.lineno}')
    except core.Discard as d:
      M.discard(str(d) or 'discarded')
    except core.HarnessError as e:
      result['case_errors'].append({'case': case, 'error': f'HarnessError: {e}',
                                    'tb': traceback.format_exc()[-2000:]})
    except Exception as e:  # pylint: disable=broad-except
      frames = traceback.extract_tb(e.__traceback__)
      if _repo_frames(frames, repo):
        # repository code raised on an input the property module considers in-domain
        M._record('no_exception_on_in_domain_input', 1.0, 0.0)  # pylint: disable=protected-access
        M._violate('no_exception_on_in_domain_input', getattr(e, 'vp_known', None),  # pylint: disable=protected-access
                   reason='repository code raised', exc=f'{type(e).__name__}: {e}'[:500],
                   tb=traceback.format_exc()[-3000:])
      else:
        result['case_errors'].append({'case': case, 'error': f'{type(e).__name__}: {e}'[:500],
                                      'tb': traceback.format_exc()[-3000:]})
    result['case_wall'][case.get('id', '?')] = round(time.time() - t1, 3)
    result['cases_done'].append(case.get('id'))
    result['export'] = M.export()
  # ---- generic history monitor (thorough tier): the first cases of the shard are executed once more
  # at the end, in the same process, after everything else has run.  Results of correct code cannot
  # depend on what ran before; state leaking between objects (a memo keyed on too little, an in-place
  # edit of a shared constant) shows up as an oracle failure of a case that passed the first time.
  if shard['tier'] == 'thorough' and len(shard['cases']) >= 3 and os.environ.get('VP_NO_HISTORY_RERUN') != '1':
    cheap = sorted(shard['cases'][:6], key=lambda c: float(c.get('cost', 1.0)))[:2]
    for case in cheap:
      M.begin(dict(case, history_rerun=True))
      result['running'] = str(case.get('id')) + ' (history rerun)'
      flush()
      try:
        mod.run(dict(case), M)
        M.cover('history_rerun', 'cases re-executed at the end of the shard')
      except core.Discard:
        pass
      except core.HarnessError as e:
        result['case_errors'].append({'case': case, 'error': f'HarnessError (history rerun): {e}'})
      except Exception as e:  # pylint: disable=broad-except
        frames = traceback.extract_tb(e.__traceback__)
        if _repo_frames(frames, repo):
          M._record('no_exception_on_in_domain_input', 1.0, 0.0)  # pylint: disable=protected-access
          M._violate('no_exception_on_in_domain_input', None,  # pylint: disable=protected-access
                     reason='repository code raised (history rerun)', exc=f'{type(e).__name__}: {e}'[:500],
                     tb=traceback.format_exc()[-3000:])
        else:
          result['case_errors'].append({'case': case, 'error': f'{type(e).__name__}: {e}'[:500],
                                        'tb': traceback.format_exc()[-3000:]})
  result['running'] = None
  try:
    M.recheck_watched()
  except Exception as e:  # pylint: disable=broad-except
    result['case_errors'].append({'case': {'id': 'immutability-recheck'}, 'error': repr(e)})
  result['export'] = M.export()
  result['status'] = 'done'
  result['wall'] = time.time() - t0
  flush()
  return 0


if __name__ == '__main__':
  sys.exit(main(sys.argv))
