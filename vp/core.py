"""Monitor object shared by every property: oracles, counters, verdict bookkeeping.

A property module drives the real code and reports what it observed through a `Monitor`:

  M.close(name, got, want, tol, scale=...)   relation between two executions / execution and model
  M.small(name, arr, scale, tol)             "is zero up to rounding", normalised by the run's own scale
  M.zero(name, arr)                          exactly 0.0
  M.same(name, a, b)                         bit-identical (shape, dtype, values)
  M.check(name, cond, info)                  boolean oracle
  M.raises(name, fn, excs) / M.no_raise      rejection oracles
  M.finite(name, tree)                       non-finite sanitizer

and the bookkeeping calls `nontrivial`, `cover`, `sample`, `discard`, `unavailable`, `note`.

Nothing here imports jax; arrays are converted with numpy.  All counters end up in the
evidence file, all failures end up as violation records carrying the case descriptor (which is
what a replay re-executes).
"""
from __future__ import annotations

import hashlib
import json
import math
import traceback
import zlib
from typing import Any, Callable

import numpy as np


class HarnessError(Exception):
  """Raised by the harness for its own problems (-> inconclusive, never a violation)."""


class Discard(Exception):
  """Raised by a property module to abandon the current case as unusable workload."""


def crc(s: str) -> int:
  return zlib.crc32(s.encode()) & 0x7FFFFFFF


def jsonable(x: Any, depth: int = 0) -> Any:
  """Best-effort conversion of a case / info object to JSON-serialisable data."""
  if depth > 6:
    return repr(x)[:200]
  if x is None or isinstance(x, (bool, int, str)):
    return x
  if isinstance(x, float):
    return x if math.isfinite(x) else repr(x)
  if isinstance(x, (np.bool_,)):
    return bool(x)
  if isinstance(x, np.integer):
    return int(x)
  if isinstance(x, np.floating):
    return jsonable(float(x))
  if isinstance(x, complex):
    return [x.real, x.imag]
  if isinstance(x, dict):
    return {str(k): jsonable(v, depth + 1) for k, v in x.items()}
  if isinstance(x, (list, tuple, set, frozenset)):
    return [jsonable(v, depth + 1) for v in x]
  if hasattr(x, 'shape') and hasattr(x, 'dtype'):
    a = np.asarray(x)
    if a.size <= 16:
      return jsonable(a.tolist(), depth + 1)
    return {'shape': list(a.shape), 'dtype': str(a.dtype),
            'absmax': jsonable(float(np.nanmax(np.abs(a))) if a.size and a.dtype.kind in 'fiu' else None)}
  return repr(x)[:300]


def _np(x) -> np.ndarray:
  return np.asarray(x)


def _absmax(a: np.ndarray) -> float:
  if a.size == 0:
    return 0.0
  return float(np.max(np.abs(a)))


class Monitor:
  """Collects oracle evaluations for one worker process."""

  HIST_LO, HIST_HI = -18, 4  # log10 bins of residual/scale

  def __init__(self, prop: str, tier: str, seed: int):
    self.prop = prop
    self.tier = tier
    self.seed = seed
    self.case: dict | None = None
    self.case_id = ''
    self.evaluations = 0
    self.monitors: dict[str, dict] = {}
    self.nontrivial_keys: set[str] = set()
    self.coverage: dict[str, dict[str, int]] = {}
    self.samples: list = []
    self.discards: dict[str, int] = {}
    self.unavail: dict[str, int] = {}
    self.notes: dict[str, float] = {}
    self.violations: list[dict] = []
    self.events: list[dict] = []  # sanitizer / warning events
    self._case_violations = 0
    self._watched: dict[str, tuple[Any, str]] = {}

  # ---------------------------------------------------------------- case scope
  def begin(self, case: dict):
    self.case = case
    self.case_id = case.get('id', '?')
    self._case_violations = 0

  def rng(self, *extra: int) -> np.random.Generator:
    """Deterministic generator for the current case (seed, property, case id [, extra])."""
    return np.random.default_rng(
        [self.seed, crc(self.prop), crc(self.case_id), *[int(e) for e in extra]])

  # ---------------------------------------------------------------- bookkeeping
  def _mon(self, name: str) -> dict:
    m = self.monitors.get(name)
    if m is None:
      m = self.monitors[name] = {'n': 0, 'fail': 0, 'worst_margin': 0.0,
                                 'worst_residual': 0.0, 'hist': {}}
    return m

  def _record(self, name: str, residual: float, tol: float):
    m = self._mon(name)
    m['n'] += 1
    self.evaluations += 1
    if tol > 0:
      margin = residual / tol if math.isfinite(residual) else math.inf
      if margin > m['worst_margin']:
        m['worst_margin'] = margin
    if residual > m['worst_residual'] or not math.isfinite(residual):
      m['worst_residual'] = residual if math.isfinite(residual) else 1e300
    if residual <= 0:
      b = 'zero'
    elif not math.isfinite(residual):
      b = 'nonfinite'
    else:
      b = str(int(min(max(math.floor(math.log10(residual)), self.HIST_LO), self.HIST_HI)))
    m['hist'][b] = m['hist'].get(b, 0) + 1

  def _violate(self, name: str, known: str | None, **details):
    m = self._mon(name)
    m['fail'] += 1
    self._case_violations += 1
    if len(self.violations) < 200:
      self.violations.append({
          'monitor': name, 'case': self.case, 'known': known,
          'details': jsonable(details)})
    else:
      # keep counting, but do not grow without bound
      self.violations[-1].setdefault('suppressed_after', 0)
      self.violations[-1]['suppressed_after'] += 1

  def nontrivial(self, *key):
    """Declare the current case (or a sub-case `key`) non-trivial by the property's rule."""
    k = json.dumps([self.case_id, jsonable(key)], sort_keys=True)
    self.nontrivial_keys.add(hashlib.sha1(k.encode()).hexdigest()[:16])

  def nontrivial_global(self, *key):
    """Non-trivial item identified by content only (deduplicated across cases)."""
    k = json.dumps(jsonable(key), sort_keys=True)
    self.nontrivial_keys.add(hashlib.sha1(k.encode()).hexdigest()[:16])

  def cover(self, table: str, key, n: int = 1):
    t = self.coverage.setdefault(table, {})
    k = key if isinstance(key, str) else json.dumps(jsonable(key))
    t[k] = t.get(k, 0) + n

  def sample(self, obj, limit: int = 3):
    if len(self.samples) < limit:
      self.samples.append(jsonable({'case': self.case_id, **obj} if isinstance(obj, dict) else obj))

  def discard(self, reason: str):
    self.discards[reason] = self.discards.get(reason, 0) + 1

  def unavailable(self, name: str):
    self.unavail[name] = self.unavail.get(name, 0) + 1

  def note(self, key: str, value: float, how: str = 'max'):
    v = float(value)
    if key not in self.notes:
      self.notes[key] = v
    elif how == 'max':
      self.notes[key] = max(self.notes[key], v)
    elif how == 'min':
      self.notes[key] = min(self.notes[key], v)
    elif how == 'sum':
      self.notes[key] += v

  def event(self, kind: str, **info):
    if len(self.events) < 100:
      self.events.append({'kind': kind, 'case': self.case_id, **jsonable(info)})

  # ---------------------------------------------------------------- oracles
  def close(self, name: str, got, want, tol: float, scale: float | None = None,
            known: str | None = None, info=None, floor: float = 0.0) -> bool:
    """max|got-want| <= tol * scale.  scale defaults to max(|want|,|got|) (or 1 if both are 0)."""
    g, w = _np(got), _np(want)
    if g.shape != w.shape:
      try:
        g, w = np.broadcast_arrays(g, w)
      except ValueError:
        self._record(name, math.inf, tol)
        self._violate(name, known, reason='shape mismatch', got_shape=g.shape, want_shape=w.shape,
                      info=info)
        return False
    if g.size == 0:
      self._record(name, 0.0, tol)
      return True
    diff = np.abs(g.astype(np.float64 if g.dtype.kind != 'c' else np.complex128) - w)
    bad_nan = ~np.isfinite(diff) & ~((g == w))  # inf==inf counts as equal
    if bad_nan.any():
      # nan in the same places in both is agreement when the oracle itself predicts nan
      both_nan = np.isnan(g.astype(float)) & np.isnan(w.astype(float)) if g.dtype.kind != 'c' else np.zeros_like(bad_nan)
      bad_nan = bad_nan & ~both_nan
    if bad_nan.any():
      self._record(name, math.inf, tol)
      idx = tuple(int(i) for i in np.argwhere(bad_nan)[0])
      self._violate(name, known, reason='non-finite mismatch', index=idx,
                    got=g[idx], want=w[idx], info=info)
      return False
    diff = np.where(np.isfinite(diff), diff, 0.0)
    if scale is None:
      fin = lambda a: _absmax(np.where(np.isfinite(a), a, 0))
      scale = max(fin(g), fin(w))
      if scale == 0:
        scale = 1.0
    scale = max(float(scale), floor)
    res = float(diff.max()) / scale if scale > 0 else (0.0 if diff.max() == 0 else math.inf)
    self._record(name, res, tol)
    if res > tol:
      idx = tuple(int(i) for i in np.unravel_index(int(np.argmax(diff)), diff.shape))
      self._violate(name, known, residual=res, tol=tol, scale=scale, index=idx,
                    got=g[idx], want=w[idx], info=info)
      return False
    return True

  def small(self, name: str, arr, scale: float, tol: float, known: str | None = None,
            info=None) -> bool:
    a = _np(arr)
    return self.close(name, a, np.zeros_like(a), tol, scale=scale if scale > 0 else 1.0,
                      known=known, info=info)

  def zero(self, name: str, arr, known: str | None = None, info=None) -> bool:
    """Every entry exactly 0.0 (or -0.0)."""
    a = _np(arr)
    nz = a != 0
    # nan != 0 is True, so NaN is caught too
    n_bad = int(nz.sum())
    self._record(name, float(n_bad and (_absmax(np.where(np.isfinite(a), a, 0)) or 1.0)), 0.0)
    if n_bad:
      idx = tuple(int(i) for i in np.argwhere(nz)[0])
      self._violate(name, known, reason='entry not exactly zero', count=n_bad, index=idx,
                    value=a[idx], shape=a.shape, info=info)
      return False
    return True

  def same(self, name: str, a, b, known: str | None = None, info=None,
           check_dtype: bool = True) -> bool:
    """Bit-identical values (nan==nan), same shape and (optionally) dtype."""
    x, y = _np(a), _np(b)
    ok = x.shape == y.shape and (not check_dtype or x.dtype == y.dtype)
    if ok:
      if x.dtype.kind in 'fc':
        ok = bool(np.array_equal(x, y, equal_nan=True))
      else:
        ok = bool(np.array_equal(x, y))
    self._record(name, 0.0 if ok else 1.0, 0.0)
    if not ok:
      d = {}
      if x.shape == y.shape and x.size:
        try:
          neq = ~((x == y) | ((x != x) & (y != y)))
          idx = tuple(int(i) for i in np.argwhere(neq)[0]) if neq.any() else None
          if idx is not None:
            d = {'index': idx, 'a': x[idx], 'b': y[idx]}
        except Exception:  # pylint: disable=broad-except
          pass
      self._violate(name, known, reason='not identical', shapes=[x.shape, y.shape],
                    dtypes=[str(x.dtype), str(y.dtype)], info=info, **d)
    return ok

  def check(self, name: str, cond, info=None, known: str | None = None) -> bool:
    ok = bool(cond)
    self._record(name, 0.0 if ok else 1.0, 0.0)
    if not ok:
      self._violate(name, known, reason='condition false', info=info)
    return ok

  def le(self, name: str, value, bound, slack: float = 0.0, known=None, info=None) -> bool:
    """value <= bound + slack elementwise; NaN fails."""
    v, b = np.broadcast_arrays(_np(value).astype(np.float64), _np(bound).astype(np.float64))
    ok_arr = v <= b + slack
    ok = bool(ok_arr.all())
    exc = v - b
    fin = np.isfinite(exc)
    worst = float(exc[fin].max()) if fin.any() else 0.0
    self._record(name, max(worst, 0.0) if ok else (worst if worst > 0 else math.inf), slack)
    if not ok:
      idx = tuple(int(i) for i in np.argwhere(~ok_arr)[0])
      self._violate(name, known, reason='bound exceeded', index=idx, value=v[idx], bound=b[idx],
                    slack=slack, info=info)
    return ok

  def finite(self, name: str, tree, known: str | None = None, info=None) -> bool:
    leaves = _leaves(tree)
    bad = None
    for i, leaf in enumerate(leaves):
      a = _np(leaf)
      if a.dtype.kind in 'fc' and not np.all(np.isfinite(a)):
        bad = (i, a)
        break
    self._record(name, 0.0 if bad is None else math.inf, 0.0)
    if bad is not None:
      i, a = bad
      nf = ~np.isfinite(a)
      self._violate(name, known, reason='non-finite value', leaf=i, count=int(nf.sum()),
                    size=int(a.size), first=tuple(int(j) for j in np.argwhere(nf)[0]), info=info)
      return False
    return True

  def raises(self, name: str, fn: Callable[[], Any], excs=(Exception,), info=None,
             known: str | None = None) -> bool:
    """The call must raise one of `excs` (rejection oracle)."""
    try:
      out = fn()
    except excs as e:  # expected
      self._record(name, 0.0, 0.0)
      return True
    except Exception as e:  # pylint: disable=broad-except
      self._record(name, 1.0, 0.0)
      self._violate(name, known, reason='raised a different exception',
                    exc=f'{type(e).__name__}: {e}'[:300], info=info)
      return False
    self._record(name, 1.0, 0.0)
    self._violate(name, known, reason='accepted an input that must be rejected',
                  returned=jsonable(out), info=info)
    return False

  def no_raise(self, name: str, fn: Callable[[], Any], info=None, known: str | None = None):
    """The call must return; an exception is a violation (returns (ok, value))."""
    try:
      out = fn()
    except Discard:
      raise
    except HarnessError:
      raise
    except Exception as e:  # pylint: disable=broad-except
      self._record(name, 1.0, 0.0)
      self._violate(name, known, reason='raised on an in-domain input',
                    exc=f'{type(e).__name__}: {e}'[:400],
                    tb=traceback.format_exc()[-1500:], info=info)
      return False, None
    self._record(name, 0.0, 0.0)
    return True, out

  # ---------------------------------------------------------------- immutability monitor
  def watch(self, name: str, arr):
    """Remember a memoised constant; `recheck_watched` is run at the worker's quiescent end."""
    if name in self._watched:
      return
    a = np.asarray(arr)
    self._watched[name] = (arr, hashlib.sha256(np.ascontiguousarray(a).tobytes()).hexdigest())

  def recheck_watched(self):
    self.case = {'id': 'immutability-recheck'}
    self.case_id = 'immutability-recheck'
    for name, (arr, digest) in self._watched.items():
      a = np.asarray(arr)
      now = hashlib.sha256(np.ascontiguousarray(a).tobytes()).hexdigest()
      self.check('immutable_constants', now == digest, info={'constant': name})

  # ---------------------------------------------------------------- export
  def export(self) -> dict:
    return {
        'evaluations': self.evaluations,
        'monitors': self.monitors,
        'nontrivial': sorted(self.nontrivial_keys),
        'coverage': self.coverage,
        'samples': self.samples,
        'discards': self.discards,
        'unavailable': self.unavail,
        'notes': self.notes,
        'violations': self.violations,
        'events': self.events,
        'watched': len(self._watched),
    }


def _leaves(tree) -> list:
  if tree is None:
    return []
  if isinstance(tree, dict):
    out = []
    for v in tree.values():
      out.extend(_leaves(v))
    return out
  if isinstance(tree, (list, tuple)):
    out = []
    for v in tree:
      out.extend(_leaves(v))
    return out
  if hasattr(tree, '__dataclass_fields__'):
    out = []
    for f in tree.__dataclass_fields__:
      out.extend(_leaves(getattr(tree, f)))
    return out
  return [tree]


def merge_exports(exports: list[dict]) -> dict:
  """Merge worker exports into one summary."""
  out = {'evaluations': 0, 'monitors': {}, 'nontrivial': set(), 'coverage': {}, 'samples': [],
         'discards': {}, 'unavailable': {}, 'notes': {}, 'violations': [], 'events': [],
         'watched': 0}
  for e in exports:
    out['evaluations'] += e['evaluations']
    out['watched'] += e.get('watched', 0)
    for k, m in e['monitors'].items():
      o = out['monitors'].setdefault(k, {'n': 0, 'fail': 0, 'worst_margin': 0.0,
                                         'worst_residual': 0.0, 'hist': {}})
      o['n'] += m['n']
      o['fail'] += m['fail']
      o['worst_margin'] = max(o['worst_margin'], m['worst_margin'])
      o['worst_residual'] = max(o['worst_residual'], m['worst_residual'])
      for b, c in m['hist'].items():
        o['hist'][b] = o['hist'].get(b, 0) + c
    out['nontrivial'].update(e['nontrivial'])
    for t, d in e['coverage'].items():
      o = out['coverage'].setdefault(t, {})
      for k, c in d.items():
        o[k] = o.get(k, 0) + c
    for s in e['samples']:
      if len(out['samples']) < 6:
        out['samples'].append(s)
    for key in ('discards', 'unavailable'):
      for k, c in e[key].items():
        out[key][k] = out[key].get(k, 0) + c
    for k, v in e['notes'].items():
      if k.endswith('_min'):
        out['notes'][k] = min(out['notes'].get(k, v), v)
      elif k.endswith('_sum'):
        out['notes'][k] = out['notes'].get(k, 0) + v
      else:
        out['notes'][k] = max(out['notes'].get(k, v), v)
    out['violations'].extend(e['violations'])
    out['events'].extend(e['events'])
  return out
